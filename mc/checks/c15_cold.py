# -*- coding: utf-8 -*-
"""C15 helper: canonical rendering, the query language, the module-state space, and the *cold
interpreter* server.

This file is used in two ways:

* imported by ``mc/checks/c15.py`` (render / eval_query / StateSpace);
* executed as a script in a freshly *spawned* interpreter (``python c15_cold.py``) that imports
  the library, makes **no** library call, and then answers every query of the request in a
  ``fork()``ed copy of that pristine interpreter -- so every single reference value is the answer
  of an interpreter in which that query is the very first library call.  Nothing is cached
  between runs of the check.

It must not import the engine (the cold interpreter has to stay minimal).
"""
from __future__ import annotations

import copy
import importlib
import json
import os
import re
import sys
import types

THEORY = ["notes", "intervals", "keys", "chords", "progressions", "scales", "value", "meter"]
STATE_MODULES = ["mingus.core." + n for n in THEORY] + ["mingus.extra.fft"]

_MISSING = object()
_ADDR = re.compile(r" at 0x[0-9a-fA-F]+")


# ---------------------------------------------------------------------------------------
# canonical, JSON-able rendering of observed values
# ---------------------------------------------------------------------------------------
def render(x, seen=None, path="", stack=None):
    """Exact structural rendering.  Distinguishes list/tuple, int/float/bool, renders library
    objects through their ``vars()``.  With ``seen`` (dict id -> path) a mutable container met a
    second time is rendered as an alias of its first occurrence, so the rendering of a whole
    state is a canonical form of its object graph (content *and* sharing)."""
    if x is None or isinstance(x, (bool, str)):
        return x
    if isinstance(x, int):
        return x
    if isinstance(x, float):
        return {"f": x.hex()}
    if isinstance(x, bytes):
        return {"b": x.hex()}
    if isinstance(x, (types.FunctionType, types.BuiltinFunctionType, types.MethodType)):
        return {"fn": "%s.%s" % (getattr(x, "__module__", None), getattr(x, "__qualname__", getattr(x, "__name__", "?")))}
    if isinstance(x, type):
        return {"cls": "%s.%s" % (x.__module__, x.__qualname__)}
    if isinstance(x, types.ModuleType):
        return {"mod": x.__name__}
    if isinstance(x, BaseException):
        return {"E": type(x).__name__, "msg": _ADDR.sub("", str(x))}
    if stack is None:
        stack = []
    if id(x) in stack:
        return {"cycle": len(stack) - stack.index(id(x))}
    mutable = isinstance(x, (list, dict, set, bytearray)) or hasattr(x, "__dict__")
    if seen is not None and mutable:
        if id(x) in seen:
            return {"alias": seen[id(x)]}
        seen[id(x)] = path
    stack.append(id(x))
    try:
        if isinstance(x, list):
            return ["L"] + [render(v, seen, "%s[%d]" % (path, i), stack) for i, v in enumerate(x)]
        if isinstance(x, tuple):
            return ["T"] + [render(v, seen, "%s[%d]" % (path, i), stack) for i, v in enumerate(x)]
        if isinstance(x, dict):
            items = [(render(k, None, "", stack), render(v, seen, "%s{%r}" % (path, k), stack)) for k, v in x.items()]
            items.sort(key=lambda kv: json.dumps(kv[0], sort_keys=True))
            return ["D"] + [[k, v] for k, v in items]
        if isinstance(x, (set, frozenset)):
            return ["S"] + sorted((render(v, None, "", stack) for v in x), key=lambda v: json.dumps(v, sort_keys=True))
        if isinstance(x, bytearray):
            return {"ba": bytes(x).hex()}
        try:
            import numbers
            if isinstance(x, numbers.Integral):
                return {"i": int(x), "t": type(x).__name__}
            if isinstance(x, numbers.Real):
                return {"f": float(x).hex(), "t": type(x).__name__}
        except Exception:                                              # noqa
            pass
        if hasattr(x, "__dict__"):
            d = vars(x)
            return {"O": type(x).__qualname__,
                    "v": [[k, render(d[k], seen, "%s.%s" % (path, k), stack)] for k in sorted(d)]}
        if hasattr(x, "__iter__") and hasattr(x, "__next__"):
            return {"iter": type(x).__name__}
        return {"R": type(x).__name__, "r": _ADDR.sub("", repr(x))}
    finally:
        stack.pop()


def rkey(r):
    """Hashable, deterministic string of a rendering."""
    return json.dumps(r, sort_keys=True, separators=(",", ":"))


# ---------------------------------------------------------------------------------------
# query language
# ---------------------------------------------------------------------------------------
def dearg(x):
    """JSON argument description -> fresh Python object (``{"t": [...]}`` = tuple,
    ``{"d": [[k, v], ...]}`` = dict, ``{"hex": "0x1p+3"}`` = float given exactly)."""
    if isinstance(x, list):
        return [dearg(i) for i in x]
    if isinstance(x, dict):
        if "t" in x:
            return tuple(dearg(i) for i in x["t"])
        if "d" in x:
            return {dearg(k): dearg(v) for k, v in x["d"]}
        if "hex" in x:
            return float.fromhex(x["hex"])
        raise ValueError("bad argument description %r" % (x,))
    return x


def qkey(q):
    return json.dumps(q, sort_keys=True, separators=(",", ":"))


_MODS = {}


def _module(name):
    m = _MODS.get(name)
    if m is None:
        m = _MODS[name] = importlib.import_module(name)
    return m


def call_query(q):
    """Execute one query on the live library.  Returns (ok, value_or_exception, live_args)."""
    mod = _module(q["m"])
    kind = q["k"]
    if kind == "attr":
        return True, getattr(mod, q["n"]), []
    args = dearg(q.get("a", []))
    kw = dearg({"d": [[k, v] for k, v in sorted(q.get("kw", {}).items())]}) if q.get("kw") else {}
    try:
        if kind == "call":
            return True, getattr(mod, q["f"])(*args, **kw), args
        if kind == "meth":
            cargs = dearg(q.get("ca", []))
            obj = getattr(mod, q["c"])(*cargs)
            return True, getattr(obj, q["f"])(*args, **kw), args
    except Exception as e:                                             # noqa -- an exception is an observable answer
        return False, e, args
    raise ValueError("bad query %r" % (q,))


def eval_query(q):
    """-> {"r": rendered result (or exception), "args": rendered arguments after the call}"""
    ok, val, args = call_query(q)
    return {"r": render(val), "args": render(args)}


# ---------------------------------------------------------------------------------------
# the module state space: every module-level data attribute found by introspection, plus the two
# other places a module can hide state in: class attributes and mutable default arguments
# ---------------------------------------------------------------------------------------
_SKIP_NAMES = {"__builtins__", "__cached__", "__doc__", "__file__", "__loader__", "__name__",
               "__package__", "__spec__", "__path__", "__annotations__", "__warningregistry__"}


def _is_code(v):
    if isinstance(v, (types.ModuleType, types.FunctionType, types.BuiltinFunctionType, type,
                      types.MethodType, staticmethod, classmethod, property)):
        return True
    # other callables (numpy's function dispatchers, functools.partial, ...) are code, not data
    return callable(v) and not isinstance(v, (list, dict, set, tuple))


def _same_atom(a, b):
    """True when a and b are equal immutable values (no need to re-bind)."""
    if type(a) is not type(b):
        return False
    if a is None or isinstance(a, (bool, int, str, bytes)):
        return a == b
    if isinstance(a, float):
        return a.hex() == b.hex()
    if isinstance(a, tuple):
        return len(a) == len(b) and all(_same_atom(x, y) for x, y in zip(a, b))
    if type(a).__module__ == "__future__":
        return True
    return False


def _atom(x):
    if x is None or isinstance(x, (bool, int, float, str, bytes, types.FunctionType, types.BuiltinFunctionType, type)):
        return True
    if isinstance(x, tuple):
        return all(_atom(i) for i in x)
    return False


def _textual(x):
    if x is None or isinstance(x, (str, types.FunctionType, types.BuiltinFunctionType, type)):
        return True
    if isinstance(x, tuple):
        return all(_textual(i) for i in x)
    return False


def _flat(v, atom=_atom):
    if isinstance(v, dict):
        return all(atom(k) and atom(i) for k, i in v.items())
    return all(atom(i) for i in v)


class StateSpace(object):
    """Slots = ("mod", module, name) | ("cls", module, class, name) | ("def", module, qualname).

    ``discover`` is re-run on every snapshot, so an attribute that appears later (a lazily
    created cache) becomes part of the state; on install a slot that did not exist in the
    snapshot is deleted again."""

    def __init__(self, module_names):
        self.module_names = list(module_names)
        self.mods = [importlib.import_module(n) for n in self.module_names]
        self.orig = {}          # slot -> the object bound at cold time (identity is part of the state)
        for slot, v in self.discover().items():
            self.orig[slot] = v
        self.cold = self.snapshot()
        self.cold_render = self.render_snapshot(self.cold)
        self.cold_key = rkey(self.cold_render)
        # fast path: a slot that is still bound to its cold-time object, whose cold value is a *flat* container
        # (atoms / functions / tuples of atoms only -- no nested mutable part that could be shared or edited
        # separately) and whose repr() is unchanged, is in exactly its cold state; its cached rendering is reused
        self.cold_slot_render = dict((tuple(k.split("/")), v) for k, v in self.cold_render)
        self.flat_repr = {}
        for slot, v in self.orig.items():
            if slot[0] in ("mod", "cls") and isinstance(v, (list, dict, set)) and _flat(v):
                # containers of strings / functions only: == is exact (no 1 == 1.0 == True ambiguity) and cheap
                self.flat_repr[slot] = None if _flat(v, _textual) else repr(v)
        # flat lists of non-zero numbers: equal values + equal element types is bit-exact equality and much cheaper
        self.flat_types = {}
        for slot, r in self.flat_repr.items():
            v = self.orig[slot]
            if r is not None and isinstance(v, list) and all(type(i) in (int, float) and i == i and i != 0 for i in v):
                self.flat_types[slot] = list(map(type, v))

    # -- discovery ---------------------------------------------------------------------
    def discover(self):
        """-> {slot: live object}.  A module is fully scanned once; the scan leaves a *recipe* (names of the data
        attributes, the function and class objects, the sizes of the namespaces).  While the namespaces keep their
        size and every function / class name is still bound to the same object the recipe is replayed (fetch the
        data attributes by name, look at each function's ``__dict__``); anything else triggers a new full scan, so
        an attribute that appears later still becomes part of the state."""
        out = {}
        recipes = self.__dict__.setdefault("_recipes", {})
        for mn, m in zip(self.module_names, self.mods):
            r = recipes.get(mn)
            if r is not None:
                part = {}
                if self._replay(mn, m, r, part):
                    out.update(part)
                    continue
            recipes[mn] = self._scan_module(mn, m, out)
        return out

    @staticmethod
    def _replay(mn, m, r, out):
        d = vars(m)
        if len(d) != r["len"]:
            return False
        for name in r["data"]:
            v = d.get(name, _MISSING)
            if v is _MISSING or _is_code(v):
                return False
            out[("mod", mn, name)] = v
        for name, f in r["funcs"]:
            if d.get(name, _MISSING) is not f:
                return False
            if f.__dict__:
                out[("fnattr", mn, f.__qualname__)] = f.__dict__
        for name in r["code"]:
            if name not in d:
                return False
        for f in r["defs"]:
            out[("def", mn, f.__qualname__)] = f.__defaults__
        for name, cls, n, attrs in r["classes"]:
            cd = vars(cls)
            if d.get(name, _MISSING) is not cls or len(cd) != n:
                return False
            for an in attrs:
                av = cd.get(an, _MISSING)
                if av is _MISSING or _is_code(av):
                    return False
                out[("cls", mn, cls.__qualname__, an)] = av
        for name in r["lru"]:
            v = d.get(name, _MISSING)
            if v is _MISSING or not hasattr(v, "cache_info"):
                return False
            out[("lru", mn, name)] = v
        return True

    def _scan_module(self, mn, m, out):
        FT = types.FunctionType
        rec = {"len": len(vars(m)), "data": [], "funcs": [], "code": [], "defs": [], "classes": [], "lru": []}
        for name, v in list(vars(m).items()):
            if name in _SKIP_NAMES:
                rec["code"].append(name)
                continue
            if hasattr(v, "cache_clear") and hasattr(v, "cache_info"):
                out[("lru", mn, name)] = v
                rec["lru"].append(name)
                continue
            if isinstance(v, FT):
                rec["funcs"].append((name, v))
                if v.__module__ == mn:
                    if self._defaults(out, mn, v):
                        rec["defs"].append(v)
                    if vars(v):
                        out[("fnattr", mn, v.__qualname__)] = vars(v)
                continue
            if isinstance(v, type) and v.__module__ == mn:
                attrs = []
                for an, av in list(vars(v).items()):
                    if an.startswith("__") and an.endswith("__"):
                        continue
                    f = av.__func__ if isinstance(av, (staticmethod, classmethod)) else av
                    if isinstance(f, FT):
                        if self._defaults(out, mn, f):
                            rec["defs"].append(f)
                        continue
                    if _is_code(av):
                        continue
                    out[("cls", mn, v.__qualname__, an)] = av
                    attrs.append(an)
                rec["classes"].append((name, v, len(vars(v)), attrs))
                continue
            if _is_code(v):
                rec["code"].append(name)
                continue
            out[("mod", mn, name)] = v
            rec["data"].append(name)
        return rec

    @staticmethod
    def _defaults(out, mn, f):
        if not f.__defaults__ and not f.__kwdefaults__:
            return False
        d = tuple(f.__defaults__ or ()) + tuple(sorted((f.__kwdefaults__ or {}).items()))
        if any(isinstance(x, (list, dict, set, bytearray)) or hasattr(x, "__dict__") for x in d if not _is_code(x)):
            out[("def", mn, f.__qualname__)] = f.__defaults__
            return True
        return False

    # -- snapshot / install ------------------------------------------------------------
    def snapshot(self):
        """Deep copy of every slot (one deepcopy call: sharing between slots is preserved)."""
        live = self.discover()
        lru = {s: tuple(v.cache_info()) for s, v in live.items() if s[0] == "lru"}
        data = {s: v for s, v in live.items() if s[0] != "lru"}
        snap = copy.deepcopy(data)
        snap.update(lru)
        return snap

    def _bind(self, slot, value):
        if slot[0] == "mod":
            setattr(importlib.import_module(slot[1]), slot[2], value)
        elif slot[0] == "cls":
            cls = self._cls(slot)
            setattr(cls, slot[3], value)
        elif slot[0] == "def":
            self._fn(slot).__defaults__ = value
        elif slot[0] == "fnattr":
            d = vars(self._fn(slot))
            if value is not d:                    # (refilled in place already: clearing it would empty the value itself)
                d.clear()
                d.update(value)

    def _unbind(self, slot):
        if slot[0] == "mod":
            delattr(importlib.import_module(slot[1]), slot[2])
        elif slot[0] == "cls":
            delattr(self._cls(slot), slot[3])
        elif slot[0] == "fnattr":
            vars(self._fn(slot)).clear()

    def _cls(self, slot):
        o = importlib.import_module(slot[1])
        for part in slot[2].split("."):
            o = getattr(o, part)
        return o

    def _fn(self, slot):
        o = importlib.import_module(slot[1])
        for part in slot[2].split("."):
            o = getattr(o, part)
        return getattr(o, "__func__", o)

    def install(self, snap):
        """Write a snapshot back.  Containers that existed at cold time are refilled *in place*
        (other modules hold references to them: ``scales.keys is keys.keys``) and re-bound to
        their name; everything else is re-bound to a fresh deep copy."""
        live = self.discover()
        for slot, v in live.items():
            if slot[0] == "lru":
                v.cache_clear()
            elif slot not in snap:
                self._unbind(slot)
        memo = {}
        plan = []
        for slot, v in snap.items():
            if slot[0] == "lru":
                continue
            if slot in self.flat_repr and slot in live and (v is self.cold[slot] or self._flat_equal(slot, v)) \
                    and self._is_cold(slot, live[slot]):
                continue                                       # already exactly this (cold, flat) value
            o = self.orig.get(slot)
            if o is not None and type(o) is type(v) and isinstance(o, (list, dict, set)):
                memo[id(v)] = o
                plan.append((slot, v, o))
            else:
                plan.append((slot, v, None))
        filled = []
        for slot, v, o in plan:
            if o is None:
                if slot in live and _same_atom(live[slot], v):
                    continue                                   # already bound to an equal immutable value
                filled.append((slot, copy.deepcopy(v, memo), None))
            elif isinstance(o, list):
                filled.append((slot, [copy.deepcopy(i, memo) for i in v], o))
            elif isinstance(o, dict):
                filled.append((slot, {copy.deepcopy(k, memo): copy.deepcopy(i, memo) for k, i in v.items()}, o))
            else:
                filled.append((slot, set(copy.deepcopy(i, memo) for i in v), o))
        for slot, new, o in filled:
            if o is None:
                self._bind(slot, new)
            else:
                if isinstance(o, list):
                    o[:] = new
                else:
                    o.clear()
                    o.update(new)
                if slot[0] == "def":
                    continue
                self._bind(slot, o)

    def install_cold(self):
        self.install(self.cold)

    # -- canonical form ------------------------------------------------------------------
    @staticmethod
    def render_snapshot(snap):
        seen = {}
        return [["/".join(slot), render(snap[slot], seen, "/".join(slot))] for slot in sorted(snap)]

    def _is_cold(self, slot, v):
        """exact test 'this slot is in its cold state' for the cheap cases (see __init__)"""
        if slot in self.flat_repr:
            if v is not self.orig[slot]:
                return False
            r = self.flat_repr[slot]
            if r is None:
                return v == self.cold[slot]
            t = self.flat_types.get(slot)
            if t is not None and v == self.cold[slot] and list(map(type, v)) == t:
                return True
            return repr(v) == r
        return slot in self.cold and _same_atom(v, self.cold[slot])

    def _flat_equal(self, slot, v):
        r = self.flat_repr[slot]
        return type(v) is type(self.cold[slot]) and ((v == self.cold[slot] and _flat(v, _textual)) if r is None else (repr(v) == r))

    def render_live(self, compact=False, live=None):
        """canonical rendering of the live state; ``compact`` writes "=" for a slot that is exactly in its cold
        state (same information, shorter key)"""
        live = self.discover() if live is None else live
        seen = {}
        out = []
        for slot in sorted(live):
            v = live[slot]
            path = "/".join(slot)
            if slot[0] == "lru":
                v = tuple(v.cache_info())
            elif self._is_cold(slot, v):
                if slot in self.flat_repr:
                    seen.setdefault(id(v), path)
                out.append([path, "=" if compact else self.cold_slot_render[slot]])
                continue
            out.append([path, render(v, seen, path)])
        return out


# ---------------------------------------------------------------------------------------
# the cold interpreter
# ---------------------------------------------------------------------------------------
def _answer_in_fork(q):
    r, w = os.pipe()
    pid = os.fork()
    if pid == 0:
        status = 0
        try:
            os.close(r)
            try:
                blob = json.dumps(eval_query(q))
            except BaseException as e:                                 # noqa
                blob = json.dumps({"harness_error": "%s: %s" % (type(e).__name__, e)})
            with os.fdopen(w, "w") as f:
                f.write(blob)
        except BaseException:                                          # noqa
            status = 3
        finally:
            os._exit(status)
    os.close(w)
    with os.fdopen(r) as f:
        blob = f.read()
    os.waitpid(pid, 0)
    return json.loads(blob) if blob else {"harness_error": "cold child wrote nothing"}


def main():
    req = json.load(sys.stdin)
    repo = req["repo"]
    sys.dont_write_bytecode = True
    sys.path.insert(0, repo)
    out_fd = os.dup(1)
    devnull = os.open(os.devnull, os.O_WRONLY)
    os.dup2(devnull, 1)                       # library prints must not corrupt the answer
    import mingus
    if not os.path.realpath(mingus.__file__).startswith(os.path.realpath(repo) + os.sep):
        raise SystemExit("mingus imported from %s, not %s" % (mingus.__file__, repo))
    space = StateSpace(req["state_modules"])
    for m in req.get("import", []):
        importlib.import_module(m)
    answers = [_answer_in_fork(q) for q in req["queries"]]
    # nothing above may have touched the state of *this* interpreter
    after = rkey(space.render_live())
    res = {"state": space.cold_render, "state_untouched": after == space.cold_key, "answers": answers,
           "python": sys.version, "mingus": os.path.realpath(mingus.__file__)}
    with os.fdopen(out_fd, "w") as f:
        json.dump(res, f)


if __name__ == "__main__":
    main()
