# -*- coding: utf-8 -*-
"""Core of the bounded-exhaustive explorer (see DESIGN.md section 2).

Contract used by every check module ``mc/checks/cNN.py``:

* ``PROPERTY``            -- the property id.
* ``CLAUSES``             -- dict  clause name -> runner(case).  A *case* is a JSON-able value
                             (an input tuple, or ``{"history": [...]}`` for a bfs clause).  The
                             runner executes the case on the real library from a fresh state,
                             compares with the reference model and reports through the
                             worker-local statistics object ``S`` (``S.problem(...)``).  The same
                             runner is what ``--replay`` calls, so every violation is replayable
                             without any explorer.
* ``explore(ctx)``        -- enumerates the bounded space with ``ctx.product`` / ``ctx.bfs`` /
                             ``ctx.serial`` and declares vacuity guards with ``ctx.guard``.
* ``KNOWN`` (optional)    -- dict predicate name -> fn(record) used by known_findings.json.

Nothing here samples: ``VERIF_SEED`` only permutes the order in which shards are handed to the
worker processes.
"""
from __future__ import annotations

import collections
import hashlib
import importlib
import json
import multiprocessing
import os
import random
import subprocess
import sys
import time
import traceback

VERIF = os.path.dirname(os.path.dirname(os.path.abspath(__file__)))
REPO = os.environ.get("MINGUS_REPO", "/repo")
NPROC = int(os.environ.get("VERIF_PROCS", "16"))
MAX_REPLAYS_PER_CLAUSE = 12      # replay files written / VIOLATION lines printed per clause
MAX_SAMPLES = 4
DECIDED_AFTER_S = float(os.environ.get("VERIF_DECIDED_AFTER_S", "240"))   # see Ctx._decided
# records kept per worker task and clause (all violations are *counted*); generous when known findings have to be
# told apart from new violations, small otherwise
PROBLEM_RECORDS_PER_TASK = 4000 if os.path.exists(os.path.join(VERIF, "known_findings.json")) and \
    '"status": "open"' in open(os.path.join(VERIF, "known_findings.json")).read() else 200

_real_stdout = sys.stdout


def emit(line):
    _real_stdout.write(line + "\n")
    _real_stdout.flush()


def bind_repo():
    """Make sure ``import mingus`` resolves to the working tree under /repo."""
    if REPO not in sys.path:
        sys.path.insert(0, REPO)
    import mingus
    f = os.path.realpath(mingus.__file__)
    if not f.startswith(os.path.realpath(REPO) + os.sep):
        raise HarnessError("mingus imported from %s, not from %s" % (f, REPO))
    return mingus


class HarnessError(Exception):
    """Something is wrong with the checker itself (exit status 2, never a verdict)."""


class StepBudgetExceeded(Exception):
    pass


# ---------------------------------------------------------------------------------------
# wall-clock horizon: a last resort against library code that never returns (most loops are caught by the
# deterministic line budget of with_step_budget; this one covers the calls a check makes without it).  The
# horizon is far above what any case needs (cases take milliseconds to a few seconds), so a correct tree does not
# reach it even on a heavily loaded machine; the timer keeps firing once a second after it expired, so that an
# "except Exception: continue" inside a spinning loop cannot swallow it for good.
# ---------------------------------------------------------------------------------------
import signal as _signal

def _die_with_parent():
    """Worker initialiser: a worker whose check process is killed (a timeout of the caller) must not live on."""
    try:
        import ctypes
        ctypes.CDLL("libc.so.6", use_errno=True).prctl(1, int(_signal.SIGKILL))       # PR_SET_PDEATHSIG
    except Exception:                                            # noqa -- not Linux: nothing to do
        pass


CASE_HORIZON_SECONDS = float(os.environ.get("VERIF_CASE_HORIZON", "300"))
_WALL_HITS = [0]


class _Watchdog(object):
    def __enter__(self):
        self.armed = False
        try:
            self.old = _signal.signal(_signal.SIGALRM, self._fire)
            _signal.setitimer(_signal.ITIMER_REAL, CASE_HORIZON_SECONDS, 1.0)
            self.armed = True
        except (ValueError, AttributeError, OSError):            # not the main thread / no SIGALRM: no watchdog
            pass
        return self

    def _fire(self, signum, frame):
        raise StepBudgetExceeded("no result after %.0f s of wall-clock time" % CASE_HORIZON_SECONDS)

    def __exit__(self, *exc):
        if self.armed:
            _signal.setitimer(_signal.ITIMER_REAL, 0.0)
            _signal.signal(_signal.SIGALRM, self.old)
        return False


def jsonable(x):
    """Canonical JSON-able rendering of arbitrary observed values (for records / comparison)."""
    if x is None or isinstance(x, (bool, int, str)):
        return x
    if isinstance(x, float):
        if x != x or x in (float("inf"), float("-inf")):
            return repr(x)
        return x
    if isinstance(x, (list, tuple)):
        return [jsonable(i) for i in x]
    if isinstance(x, (set, frozenset)):
        return sorted((jsonable(i) for i in x), key=repr)
    if isinstance(x, dict):
        return {str(k): jsonable(v) for k, v in sorted(x.items(), key=lambda kv: repr(kv[0]))}
    if isinstance(x, BaseException):
        return "%s: %s" % (type(x).__name__, x)
    return repr(x)


def deep_key(x, _memo=None, _depth=0, exclude=()):
    """Hashable canonical rendering of *everything* reachable from x.

    Meant for `canon`: instead of hand-picking the fields future behaviour can depend on, take the
    whole instance dictionary (and the data attributes of its class), so that hidden state that a
    change to the library introduces (a remembered cursor, a cached total) still distinguishes
    states and is therefore explored.  Floats are keyed bit-exactly; object identity is replaced
    by structure, with back-references for shared/cyclic objects (so aliasing is part of the key).
    """
    if _memo is None:
        _memo = {}
    if x is None or isinstance(x, (bool, int, str, bytes)):
        return x
    if isinstance(x, float):
        return ("f", x.hex())
    if _depth > 40:
        return ("deep",)
    if isinstance(x, (list, tuple, set, frozenset, dict)) or hasattr(x, "__dict__"):
        if id(x) in _memo:
            return ("ref", _memo[id(x)])
        _memo[id(x)] = len(_memo)
    if isinstance(x, (list, tuple)):
        return (type(x).__name__,) + tuple(deep_key(i, _memo, _depth + 1) for i in x)
    if isinstance(x, (set, frozenset)):
        return ("set",) + tuple(sorted((deep_key(i, _memo, _depth + 1) for i in x), key=repr))
    if isinstance(x, dict):
        return ("dict",) + tuple(sorted(((deep_key(k, _memo, _depth + 1), deep_key(v, _memo, _depth + 1)) for k, v in x.items()), key=repr))
    if isinstance(x, type) or callable(x):
        return ("callable", getattr(x, "__qualname__", repr(type(x))))
    if hasattr(x, "__dict__"):
        cls = type(x)
        inst = vars(x)
        items = [(k, deep_key(v, _memo, _depth + 1)) for k, v in sorted(inst.items()) if not (_depth == 0 and k in exclude)]
        if (cls.__module__ or "").startswith("mingus"):
            for klass in cls.__mro__:
                if klass is object:
                    continue
                for k, v in sorted(vars(klass).items()):
                    if k.startswith("__") or k in inst or (_depth == 0 and k in exclude) or callable(v) or isinstance(v, (staticmethod, classmethod, property)):
                        continue
                    items.append(("class:" + k, deep_key(v, _memo, _depth + 1)))
        return (cls.__module__ + "." + cls.__qualname__,) + tuple(items)
    return ("repr", repr(x))


class Stats(object):
    """Mergeable per-worker statistics."""

    def __init__(self):
        self.states = 0
        self.transitions = 0
        self.executions = 0
        self.counters = collections.Counter()     # guard values, named counts
        self.outcomes = {}                        # clause -> set of short outcome keys
        self.samples = {}                         # clause -> list
        self.problems = {}                        # clause -> list of records (capped)
        self.problem_counts = collections.Counter()
        self.clause_cases = collections.Counter()
        self.clause_trans = collections.Counter()
        self.current_clause = None
        self.current_case = None

    # -- reporting API used by runners -------------------------------------------------
    def trans(self, n=1):
        self.transitions += n
        self.clause_trans[self.current_clause] += n

    def count(self, name, n=1):
        self.counters[name] += n

    def outcome(self, key):
        s = self.outcomes.setdefault(self.current_clause, set())
        if len(s) < 100000:
            s.add(key if isinstance(key, (str, int, tuple)) else repr(key))

    def sample(self, x):
        lst = self.samples.setdefault(self.current_clause, [])
        if len(lst) < MAX_SAMPLES:
            lst.append(jsonable(x))

    def problem(self, site, expected, observed, detail=None, clause=None, case=None, tags=None):
        clause = clause or self.current_clause
        case = self.current_case if case is None else case
        self.problem_counts[clause] += 1
        lst = self.problems.setdefault(clause, [])
        if len(lst) >= PROBLEM_RECORDS_PER_TASK:
            return                      # counted; rendering thousands of records only costs time
        rec = {
            "clause": clause,
            "site": site,
            "case": jsonable(case),
            "expected": jsonable(expected),
            "observed": jsonable(observed),
        }
        if detail is not None:
            rec["detail"] = jsonable(detail)
        if tags:
            rec["tags"] = jsonable(tags)
        lst.append(rec)

    # -- merging -------------------------------------------------------------------------
    def merge(self, o):
        self.states += o.states
        self.transitions += o.transitions
        self.executions += o.executions
        self.counters.update(o.counters)
        self.problem_counts.update(o.problem_counts)
        self.clause_cases.update(o.clause_cases)
        self.clause_trans.update(o.clause_trans)
        for k, v in o.outcomes.items():
            self.outcomes.setdefault(k, set()).update(v)
        for k, v in o.samples.items():
            lst = self.samples.setdefault(k, [])
            for x in v:
                if len(lst) < MAX_SAMPLES:
                    lst.append(x)
        for k, v in o.problems.items():
            lst = self.problems.setdefault(k, [])
            for x in v:
                if len(lst) < 20000:
                    lst.append(x)


S = Stats()          # worker-local; replaced per task in workers


def run_case(runner, clause, case, stats=None):
    """Run one case under the runner, converting an escaping exception into a problem."""
    global S
    st = stats if stats is not None else S
    st.current_clause = clause
    st.current_case = case
    st.executions += 1
    st.clause_cases[clause] += 1
    if _WALL_HITS[0] >= 3:
        # this worker already sat out the wall-clock horizon three times (each reported): the remaining cases of its
        # share are not run -- the verdict is a violation already, and waiting hours for more of them helps nobody
        st.count("cases_not_run_after_three_wall_clock_timeouts")
        return
    try:
        with _Watchdog():
            runner(case)
    except HarnessError:
        raise
    except StepBudgetExceeded as e:
        if "wall-clock" in str(e):
            _WALL_HITS[0] += 1
        st.problem("runner", "terminates within the step horizon", "no result within horizon: %s" % e)
    except Exception as e:                                     # noqa
        tb = traceback.extract_tb(sys.exc_info()[2])
        where = ["%s:%d %s" % (os.path.relpath(f.filename, REPO) if f.filename.startswith(REPO) else os.path.basename(f.filename), f.lineno, f.name) for f in tb[-4:]]
        st.problem("runner", "no exception escaping the case runner",
                   "%s: %s" % (type(e).__name__, e), detail=where)


# ---------------------------------------------------------------------------------------
# step budget (termination horizon) -- deterministic, no wall clock
# ---------------------------------------------------------------------------------------
def with_step_budget(fn, args=(), kwargs=None, budget=20000):
    """Call fn under a line-event budget; raises StepBudgetExceeded if it is used up."""
    kwargs = kwargs or {}
    n = [0]

    def tracer(frame, event, arg):
        if event == "line":
            n[0] += 1
            if n[0] > budget:
                raise StepBudgetExceeded("more than %d line events in %s" % (budget, getattr(fn, "__name__", fn)))
        return tracer

    old = sys.gettrace()
    sys.settrace(tracer)
    try:
        return fn(*args, **kwargs)
    finally:
        sys.settrace(old)


# ---------------------------------------------------------------------------------------
# worker plumbing (fork pool; the task closure lives in module globals of the parent)
# ---------------------------------------------------------------------------------------
_TASK = {}


def _worker_product(shard):
    global S
    S = Stats()
    clause, gen, runner = _TASK["clause"], _TASK["gen"], _TASK["runner"]
    n = 0
    for case in gen(shard):
        run_case(runner, clause, case)
        n += 1
    S.states += n
    return S


def _worker_bfs(chunk):
    """Expand a chunk of frontier histories by every action.  Returns (stats, [(key, hist)])."""
    global S
    S = Stats()
    spec, clause = _TASK["spec"], _TASK["clause"]
    out = []
    actions = spec.actions()
    for hist in chunk:
        for ai, act in enumerate(actions):
            S.current_clause = clause
            S.current_case = dict(spec.params(), history=list(hist) + [act])
            S.executions += 1
            S.clause_cases[clause] += 1
            before = S.problem_counts[clause]
            key = None
            try:
                with _Watchdog():
                    key = bfs_execute(spec, list(hist) + [act], check_prefix=False)
            except HarnessError:
                raise
            except StepBudgetExceeded as e:
                S.problem("bfs", "terminates within the step horizon", "no result within horizon: %s" % e)
            except Exception as e:                                  # noqa
                tb = traceback.extract_tb(sys.exc_info()[2])
                where = ["%s:%d %s" % (os.path.basename(f.filename), f.lineno, f.name) for f in tb[-4:]]
                S.problem("bfs", "no exception escaping", "%s: %s" % (type(e).__name__, e), detail=where)
            S.trans(1)
            if key is not None and S.problem_counts[clause] == before:
                # a state that already violates is reported, not expanded
                out.append((key, list(hist) + [act]))
    return S, out


def bfs_execute(spec, history, check_prefix=True):
    """Fresh (impl, model); replay history; oracle on the last step (or every step).

    Returns the canonical key of the reached state."""
    st = spec.init()
    n = len(history)
    if n == 0:
        spec.invariant(st)
    global S
    for i, act in enumerate(history):
        last = (i == n - 1)
        spec.step(st, act, check=(last or check_prefix))
        if last or check_prefix:
            spec.invariant(st)
        elif getattr(spec, "observe_prefix", False):
            # the state invariant *observes* the object (length, names, predicates ...).  A library that
            # remembers what it was asked must be asked at every step of the history, as it was when the
            # prefix states were explored; what is observed here was already judged there, so it is muted.
            keep, S = S, Stats()
            S.current_clause, S.current_case = keep.current_clause, keep.current_case
            try:
                spec.invariant(st)
            except Exception:                                   # noqa -- judged when that prefix was a state
                pass
            finally:
                S = keep
    # the canonical key is reduced to a 128-bit digest: keys built with deep_key are large and
    # would otherwise dominate the cost of shipping results to the parent
    key = spec.canon(st)
    if isinstance(key, (str, int, bytes)) or (isinstance(key, tuple) and len(key) <= 8 and all(isinstance(i, (str, int)) for i in key)):
        return key              # small keys are kept readable (callers may use the returned state set)
    return hashlib.blake2b(repr(key).encode("utf-8", "backslashreplace"), digest_size=16).digest()


class BfsSpec(object):
    """Base class of a bfs specification.  Subclasses define:

    init() -> state (any object holding the live library object(s) and the model)
    actions() -> list of JSON-able action descriptors (simplest first)
    step(state, action, check) -> performs the real call and the model step; when ``check`` it
                                  compares them and reports with engine.S.problem(...)
    invariant(state) -> state invariant, reports with engine.S.problem(...)
    canon(state) -> hashable canonical key (exactly what future behaviour can depend on)
    """

    def params(self):
        """JSON-able parameters of this spec, stored in every recorded case (for replay)."""
        return {}

    def init(self):
        raise NotImplementedError

    def actions(self):
        raise NotImplementedError

    def step(self, state, action, check=True):
        raise NotImplementedError

    def invariant(self, state):
        pass

    def canon(self, state):
        raise NotImplementedError


def make_bfs_runner(spec):
    def runner(case):
        bfs_execute(spec, case["history"], check_prefix=True)
    return runner


# ---------------------------------------------------------------------------------------
class Ctx(object):
    def __init__(self, prop, tier, seed, module):
        self.prop = prop
        self.tier = tier
        self.seed = seed
        self.module = module
        self.stats = Stats()
        self.bounds = {}
        self.guards = []           # (name, value, minimum, ok)
        self.exhaustive = True
        self.caps_hit = []
        self.notes = []
        self.per_clause = {}
        self.t0 = time.time()
        self.rng = random.Random(seed)
        self.only = None
        self.bounds_tier = None

    def want(self, clause):
        """False when --only was given and does not name this clause (debugging aid)."""
        only = getattr(self, "only", None)
        return (not only) or clause in only

    @property
    def quick(self):
        return (self.bounds_tier or self.tier) == "quick"

    def pick(self, quick, thorough):
        return quick if (self.bounds_tier or self.tier) == "quick" else thorough

    def use_thorough_bounds(self, why):
        """For checks whose thorough exploration is cheap enough to run on every change."""
        self.bounds_tier = "thorough"
        self.bound("quick_tier_runs_thorough_bounds", why)

    def bound(self, name, value):
        self.bounds[name] = jsonable(value)

    def note(self, text):
        self.notes.append(text)

    def guard(self, name, value, minimum):
        ok = value >= minimum
        self.guards.append({"name": name, "value": value, "minimum": minimum, "ok": ok})

    def counter(self, name):
        return self.stats.counters.get(name, 0)

    def _decided(self, clause, label=None, kind="product"):
        """True when the verdict is already 'violation' and the run has gone on for DECIDED_AFTER_S.

        A change that adds hidden growing state to a class (a class-wide memo) can make every state
        key of a later search unique and large, so that the remaining clauses need many times their
        usual time although an earlier clause has long reported the violation (seed C13-j3).  The
        verdict cannot change back: once an *unlisted* violation is recorded and the run is older
        than the limit, the remaining clauses are skipped, named under caps_hit, and the run is
        reported as not exhaustive.  Never taken on a tree without violations.
        """
        if time.time() - self.t0 < DECIDED_AFTER_S or not self.stats.problems:
            return False
        if getattr(self, "_known", None) is None:
            self._known = load_known(self.prop)
        if not any(match_known(self.module, self._known, rec) is None
                   for recs in self.stats.problems.values() for rec in recs):
            return False
        self.exhaustive = False
        self.caps_hit.append("%s: skipped, an unlisted violation was already recorded and the run was %ds old" % (
            label or clause, time.time() - self.t0))
        self.per_clause.setdefault(label or clause, {
            "clause": clause, "kind": kind, "skipped": True, "cases": 0, "executions": 0, "violating": 0, "states": 0,
            "levels": [], "fixpoint_reached": False, "capped": True, "wall_s": 0.0})
        return True

    # -- enumerators ---------------------------------------------------------------------
    def _pool(self):
        ctx = multiprocessing.get_context("fork")
        return ctx.Pool(NPROC, initializer=_die_with_parent)

    def product(self, clause, shards, gen, runner=None, parallel=True):
        """Exhaustively run ``runner`` on every case produced by ``gen(shard)`` for every shard."""
        if self._decided(clause):
            return
        runner = runner or self.module.CLAUSES[clause]
        shards = list(shards)
        self.rng.shuffle(shards)                     # order only; every shard is run
        t = time.time()
        _TASK.clear()
        _TASK.update(clause=clause, gen=gen, runner=runner)
        before_states = self.stats.states
        if parallel and len(shards) > 1 and NPROC > 1:
            with self._pool() as pool:
                for st in pool.imap_unordered(_worker_product, shards, chunksize=1):
                    self.stats.merge(st)
        else:
            for sh in shards:
                self.stats.merge(_worker_product(sh))
        pc = self.per_clause.setdefault(clause, {"kind": "product", "cases": 0, "wall_s": 0.0})
        pc["cases"] += self.stats.states - before_states
        pc["wall_s"] = round(pc["wall_s"] + time.time() - t, 3)

    def serial(self, clause, cases, runner=None):
        """Same as product, in this process (needed when the runner touches process state)."""
        if self._decided(clause, kind="serial"):
            return
        runner = runner or self.module.CLAUSES[clause]
        global S
        t = time.time()
        S = self.stats
        n = 0
        for case in cases:
            run_case(runner, clause, case, self.stats)
            n += 1
        self.stats.states += n
        pc = self.per_clause.setdefault(clause, {"kind": "serial", "cases": 0, "wall_s": 0.0})
        pc["cases"] += n
        pc["wall_s"] = round(pc["wall_s"] + time.time() - t, 3)

    def bfs(self, clause, spec, depth, cap=None, parallel=True, label=None):
        """Explicit-state breadth-first search over the real transition functions."""
        if self._decided(clause, label, kind="bfs"):
            return set()
        t = time.time()
        cases0 = self.stats.clause_cases.get(clause, 0)
        viol0 = self.stats.problem_counts.get(clause, 0)
        _TASK.clear()
        _TASK.update(clause=clause, spec=spec)
        global S
        S = Stats()
        S.current_clause = clause
        S.current_case = dict(spec.params(), history=[])
        key0 = bfs_execute(spec, [], check_prefix=True)
        self.stats.merge(S)
        seen = {key0}
        frontier = [[]]
        levels = [1]
        capped = False
        reached_fixpoint = False
        pool = self._pool() if (parallel and NPROC > 1) else None
        try:
            for d in range(1, depth + 1):
                if not frontier:
                    reached_fixpoint = True
                    break
                if self._decided(clause, (label or clause) + " (from depth %d)" % d, kind="bfs"):
                    capped = True
                    break
                self.rng.shuffle(frontier)
                nchunks = max(1, min(len(frontier), NPROC * 4))
                chunks = [frontier[i::nchunks] for i in range(nchunks)]
                results = pool.imap_unordered(_worker_bfs, chunks) if pool else map(_worker_bfs, chunks)
                best = {}
                rank = lambda h: json.dumps(h, sort_keys=True, default=repr)
                for st, out in results:
                    self.stats.merge(st)
                    for key, hist in out:
                        if key in seen:
                            continue
                        cur = best.get(key)
                        # deterministic representative: the smallest history reaching the state
                        if cur is None or rank(hist) < rank(cur):
                            best[key] = hist
                frontier = []
                for key, hist in sorted(best.items(), key=lambda kh: rank(kh[1])):
                    if cap is not None and len(seen) >= cap:
                        capped = True
                        break
                    seen.add(key)
                    frontier.append(hist)
                levels.append(len(frontier))
                if capped:
                    break
            else:
                reached_fixpoint = not frontier
        finally:
            if pool:
                pool.close()
                pool.join()
        self.stats.states += len(seen)
        if capped:
            self.exhaustive = False
            self.caps_hit.append("%s: state cap %s" % (clause, cap))
        self.per_clause[label or clause] = {
            "clause": clause, "executions": self.stats.clause_cases.get(clause, 0) - cases0,
            "violating": self.stats.problem_counts.get(clause, 0) - viol0,
            "kind": "bfs", "depth_bound": depth, "states": len(seen), "levels": levels,
            "fixpoint_reached": reached_fixpoint, "capped": capped, "actions": len(spec.actions()),
            "wall_s": round(time.time() - t, 3),
        }
        return seen


# ---------------------------------------------------------------------------------------
# known findings, replay files, evidence, exit status
# ---------------------------------------------------------------------------------------
def load_known(prop):
    path = os.path.join(VERIF, "known_findings.json")
    if not os.path.exists(path):
        return []
    with open(path) as f:
        data = json.load(f)
    return [e for e in data.get("findings", []) if e.get("property") == prop and e.get("status") == "open"]


def match_known(module, entries, rec):
    preds = getattr(module, "KNOWN", {})
    for e in entries:
        if e.get("clause") not in (None, rec["clause"]):
            continue
        pred = preds.get(e["when"])
        if pred is None:
            raise HarnessError("known finding %s names unknown predicate %r" % (e.get("id"), e["when"]))
        try:
            if pred(rec):
                return e
        except Exception:                                          # noqa
            continue
    return None


def write_replay(prop, rec):
    d = os.path.join(VERIF if os.path.realpath(REPO) == "/repo" else "/root/scratch/other-tree", "replays", prop)
    os.makedirs(d, exist_ok=True)
    body = dict(rec)
    body["property"] = prop
    blob = json.dumps(body, sort_keys=True, indent=1, default=repr)
    sha = hashlib.sha1(blob.encode()).hexdigest()[:16]
    path = os.path.join(d, sha + ".json")
    with open(path, "w") as f:
        f.write(blob)
    return path


def replay_record(module, rec):
    """Re-execute exactly one recorded case, no explorer.  Returns list of problem records."""
    global S
    S = Stats()
    runner = module.CLAUSES[rec["clause"]]
    run_case(runner, rec["clause"], rec["case"], S)
    return S.problems.get(rec["clause"], [])


def _confirm_in_fresh_process(prop, path):
    """Replay a violation twice in fresh interpreters; both must reproduce it identically."""
    outs = []
    for _ in range(2):
        p = subprocess.run([sys.executable, os.path.join(VERIF, "check.py"), prop, "--replay", path, "--quiet"],
                           stdout=subprocess.PIPE, stderr=subprocess.PIPE, text=True, timeout=600)
        outs.append((p.returncode, p.stdout.strip()))
    if outs[0] != outs[1]:
        raise HarnessError("replay of %s is not deterministic: %r vs %r" % (path, outs[0], outs[1]))
    if outs[0][0] != 1:
        raise HarnessError("violation %s did not reproduce from a fresh process (status %s): %s" % (path, outs[0][0], outs[0][1][-300:]))


def finish(ctx):
    """Classify problems, write replays + evidence, print lines, return exit status."""
    st = ctx.stats
    module = ctx.module
    known = load_known(ctx.prop)
    known_hits = collections.OrderedDict((e["id"], 0) for e in known)
    unknown = {}
    for clause, recs in st.problems.items():
        for rec in recs:
            e = match_known(module, known, rec)
            if e is not None:
                known_hits[e["id"]] += 1
            else:
                unknown.setdefault(clause, []).append(rec)
    total_unknown = 0
    lines = []
    confirm_budget = 3
    for clause in sorted(unknown):
        recs = unknown[clause]
        total_unknown += len(recs)
        # smallest cases first: the shortest counterexample is the easiest to explain
        recs.sort(key=lambda r: (len(json.dumps(r["case"], default=repr)), json.dumps(r["case"], sort_keys=True, default=repr)))
        for rec in recs[:MAX_REPLAYS_PER_CLAUSE]:
            path = write_replay(ctx.prop, rec)
            if confirm_budget > 0 and os.environ.get("VERIF_NO_CONFIRM") != "1":
                confirm_budget -= 1
                _confirm_in_fresh_process(ctx.prop, path)
            lines.append("VIOLATION property=%s replay=%s" % (ctx.prop, path))
            lines.append("  clause=%s site=%s case=%s expected=%s observed=%s" % (
                clause, rec["site"], json.dumps(rec["case"], default=repr)[:300],
                json.dumps(rec["expected"], default=repr)[:200], json.dumps(rec["observed"], default=repr)[:300]))
        if len(recs) > MAX_REPLAYS_PER_CLAUSE:
            lines.append("  (+%d further violating cases of clause %s not written out)" % (
                st.problem_counts[clause] - MAX_REPLAYS_PER_CLAUSE, clause))
    for e in known:
        n = known_hits[e["id"]]
        if n:
            lines.append("KNOWN-FINDING: property=%s %s [%s; %d matching case(s) this run]" % (ctx.prop, e["what"], e["id"], n))
    failed_guards = [g for g in ctx.guards if not g["ok"]]
    distinct_outcomes = sum(len(v) for v in st.outcomes.values())
    samples = []
    for clause, lst in sorted(st.samples.items()):
        for x in lst[:2]:
            samples.append({"clause": clause, "case": x})
    if not samples:
        samples = [{"note": "no sample recorded"}]
    coverage = {
        "states": st.states,
        "transitions": st.transitions,
        "traces_validated_against_impl": st.executions,
        "samples": samples[:24],
        "evaluations": st.executions,
        "distinct_nontrivial": max(distinct_outcomes, 0),
        "rule": getattr(module, "RULE", "every case of the stated bounded space is enumerated once; distinct_nontrivial counts distinct observed outcomes (per clause) of the real library"),
        "exhaustive": bool(ctx.exhaustive),
        "caps_hit": ctx.caps_hit,
        "bounds": ctx.bounds,
        "per_clause": {k: dict(v, clause_cases_run=st.clause_cases.get(v.get("clause", k), 0),
                               clause_library_calls=st.clause_trans.get(v.get("clause", k), 0),
                               clause_distinct_outcomes=len(st.outcomes.get(v.get("clause", k), ())),
                               clause_violating_cases=st.problem_counts.get(v.get("clause", k), 0))
                       for k, v in sorted(ctx.per_clause.items())},
        "guards": ctx.guards,
        "counters": dict(sorted(st.counters.items())),
        "known_findings_matched": dict(known_hits),
        "explanation": "explicit-state / bounded-exhaustive exploration of the real implementation in lock-step with an independent reference model; every explored trace is an execution of the implementation",
        "notes": ctx.notes,
    }
    ev = {
        "property_id": ctx.prop,
        "tier": ctx.tier,
        "seed": ctx.seed,
        "level": "model_checking",
        "coverage": coverage,
        "assumptions": getattr(module, "ASSUMPTIONS", []),
        "wall_s": round(time.time() - ctx.t0, 3),
        "violations": total_unknown,
    }
    # evidence under /verif/evidence is only ever written by runs against /repo itself
    evdir = os.environ.get("VERIF_EVIDENCE_DIR") or (
        os.path.join(VERIF, "evidence") if os.path.realpath(REPO) == "/repo" else "/root/scratch/evidence-other-tree")
    os.makedirs(evdir, exist_ok=True)
    tmp = os.path.join(evdir, ctx.prop + ".json.tmp")
    with open(tmp, "w") as f:
        json.dump(ev, f, indent=1, sort_keys=True, default=repr)
        f.write("\n")
    os.replace(tmp, os.path.join(evdir, ctx.prop + ".json"))
    for l in lines:
        emit(l)
    emit("%s tier=%s seed=%d states=%d transitions=%d executions=%d distinct_outcomes=%d violations=%d known=%d exhaustive=%s wall=%.1fs" % (
        ctx.prop, ctx.tier, ctx.seed, st.states, st.transitions, st.executions, distinct_outcomes,
        total_unknown, sum(known_hits.values()), ctx.exhaustive, time.time() - ctx.t0))
    if failed_guards:
        for g in failed_guards:
            emit("HARNESS-ERROR vacuity guard failed: %s = %s < %s" % (g["name"], g["value"], g["minimum"]))
        if total_unknown == 0:
            return 2
    return 1 if total_unknown else 0
