#!/venv/bin/python
"""Print the prompt given to a fresh 'seeder' sub-agent: property text + scratch worktree only."""
import json, sys
pid, wt = sys.argv[1], sys.argv[2]
n = sys.argv[3] if len(sys.argv) > 3 else "3"
import glob, os
avoid = ""
if len(sys.argv) > 4 and sys.argv[4] == "avoid":
    heads = []
    for d in sorted(glob.glob('/verif/seeded/%s-*' % pid)):
        f = os.path.join(d, 'notes.md')
        if os.path.exists(f):
            lines = [l.strip('# ').strip() for l in open(f) if l.strip()]
            if lines:
                heads.append(lines[0][:160])
    if heads:
        avoid = ("\n\nOther engineers have already produced the following changes for this property. Yours must be DIFFERENT in kind from all of them "
                 "(a different function or mechanism, a different clause where possible), and harder to notice: prefer changes whose effect depends on "
                 "the history of earlier calls or on state shared between objects, changes where two edited sites cooperate, and changes that only affect "
                 "an input class nobody would think of trying.\n" + "\n".join("  - " + h for h in heads))
for l in open('/verif/properties.jsonl'):
    p = json.loads(l)
    if p['id'] == pid:
        break
print(f"""You are testing how well a verification effort can detect subtle regressions in the open-source Python music-theory library bspaans/python-mingus. You have your own scratch git worktree of the library at {wt} (work ONLY inside that directory; do not read or touch /repo, /verif or any other directory; the Python interpreter to use is /venv/bin/python, and to import the library from your worktree run your scripts with `cd {wt} && PYTHONPATH={wt} /venv/bin/python yourscript.py` and check `mingus.__file__` points into your worktree).

Here is a semantic property the library is supposed to satisfy:

TITLE: {p['title']}

STATEMENT: {p['statement']}

QUANTIFIED OVER: {p['quantifier']['text']}

Relevant source files: {', '.join(p['anchors']['files'])}

Your task: produce {n} DIFFERENT, independent changes (patches) to the library's source (under {wt}/mingus/ only — never edit tests) such that each change, applied alone to the clean tree:
  1. breaks the property above (some input / operation sequence now violates the statement),
  2. still imports/compiles, and
  3. keeps the existing test-suite green: `cd {wt} && /venv/bin/python -m pytest -q -p no:cacheprovider --timeout=900 --continue-on-collection-errors` must still report `190 passed` (1 collection error for test_fluidsynth is the normal baseline).

Make the changes REALISTIC (the kind of slip a maintainer could make while refactoring or optimising: an off-by-one in a table index or wrap-around, a cursor advanced before a capacity test, a cached/shared mutable value, a branch of an octave/accidental fix-up dropped, a tolerance changed, two cooperating sites that each look fine alone...) and SUBTLE: each must need something specific to manifest — a particular multi-step sequence of operations, an unusual but legal input (double accidentals, a rarely used key or meter, a value like a dotted or tuplet note, a boundary), a particular prior call history — rather than something ordinary use would expose at once. Do not write changes that only affect error messages, comments, performance or anything the statement does not talk about. Prefer three changes that break different clauses of the statement.{avoid}

For each change i = 1..{n} write, in the directory {wt}/seed_out/<i>/ :
  * patch.diff — `git diff` of that change alone against the clean worktree (make sure it applies with `git apply` to a clean checkout);
  * demo.py — a small stand-alone program that exits 0 (prints OK) on the clean tree and exits non-zero (prints what went wrong) with the change applied, exercising the violated part of the statement through the library's public API;
  * notes.md — which clause of the statement it breaks, what exactly is needed for it to manifest, and the commands you ran (test-suite result with the patch, demo result with and without the patch).
Verify all of this yourself: for each patch start from a clean tree (`git checkout -- . && git clean -fdq -e seed_out`), apply, run the test-suite, run the demo, revert, run the demo again. Leave the worktree clean (apart from seed_out/) when you finish. Your final message should list the patches with a one-line description each.""")
