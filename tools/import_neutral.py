#!/venv/bin/python
"""Import behaviour-preserving changes written by a sub-agent and run checks against them.

usage: import_neutral.py <agent worktree> <PROPERTY> [--also C15,...] [--tier quick]

For every <worktree>/neutral_out/<i>/patch.diff: apply to a fresh scratch worktree of /repo HEAD, run the
repository's test-suite (must stay at 190 passed) and the property's check (plus --also).  A check that
reports a violation here is either a false alarm (to be fixed in the check) or the change is not neutral
after all (triage by hand).  Stored as /verif/neutral/<PROPERTY>-n<i>/ {patch.diff, notes.md, meta.json}.
"""
import json
import os
import shutil
import subprocess
import sys
import time

VERIF = os.path.dirname(os.path.dirname(os.path.abspath(__file__)))


def sh(cmd, cwd=None, env=None, timeout=900):
    try:
        p = subprocess.run(cmd, cwd=cwd, env=env, stdout=subprocess.PIPE, stderr=subprocess.STDOUT, text=True, timeout=timeout)
        return p.returncode, p.stdout
    except subprocess.TimeoutExpired as e:
        return 124, "TIMEOUT after %ss" % timeout


def main():
    src, prop = sys.argv[1], sys.argv[2].upper()
    also = []
    tier = "quick"
    if "--also" in sys.argv:
        also = [x for x in sys.argv[sys.argv.index("--also") + 1].split(",") if x]
    if "--tier" in sys.argv:
        tier = sys.argv[sys.argv.index("--tier") + 1]
    tag = "n"
    if "--tag" in sys.argv:
        tag = sys.argv[sys.argv.index("--tag") + 1]
    wt = "/root/scratch/neutralcheck-%d" % os.getpid()
    os.makedirs("/root/scratch", exist_ok=True)
    rc, out = sh(["git", "-C", "/repo", "worktree", "add", "--detach", wt])
    assert rc == 0, out
    head = sh(["git", "-C", "/repo", "rev-parse", "--short", "HEAD"])[1].strip()
    try:
        base = os.path.join(src, "neutral_out")
        for i in sorted(os.listdir(base)):
            d = os.path.join(base, i)
            pf = os.path.join(d, "patch.diff")
            if not os.path.isfile(pf) or not os.path.isdir(d):
                continue
            sh(["git", "checkout", "--", "."], cwd=wt)
            sh(["git", "clean", "-fdq"], cwd=wt)
            rca, outa = sh(["git", "apply", pf], cwd=wt)
            if rca:
                print("%s: patch does not apply: %s" % (d, outa[-200:]))
                continue
            rct, outt = sh(["/venv/bin/python", "-m", "pytest", "-q", "-p", "no:cacheprovider", "--timeout=300",
                            "--continue-on-collection-errors"], cwd=wt, timeout=600)
            last = [l for l in outt.strip().splitlines() if "passed" in l or "failed" in l][-1:]
            tests_ok = bool(last) and "190 passed" in last[0] and "failed" not in last[0]
            verdicts = {}
            firsts = {}
            for p in [prop] + also:
                t = time.time()
                cenv = dict(os.environ, MINGUS_REPO=wt, VERIF_NO_CONFIRM="1")
                rcc, outc = sh(["/venv/bin/python", os.path.join(VERIF, "check.py"), p, "--tier", tier], env=cenv, timeout=1200)
                verdicts[p] = {0: "silent", 1: "ALARM", 2: "HARNESS-ERROR", 124: "TIMEOUT"}.get(rcc, str(rcc))
                fv = [l.strip() for l in outc.splitlines() if l.startswith("  clause=") or l.startswith("HARNESS")][:2]
                if fv:
                    firsts[p] = fv
            name = "%s-%s%s" % (prop, tag, i)
            dst = os.path.join(VERIF, "neutral", name)
            os.makedirs(dst, exist_ok=True)
            shutil.copy(pf, os.path.join(dst, "patch.diff"))
            if os.path.exists(os.path.join(d, "notes.md")):
                shutil.copy(os.path.join(d, "notes.md"), os.path.join(dst, "notes.md"))
            meta = {"property": prop, "kind": "behaviour-preserving change (the property must still hold)",
                    "origin": "written by a fresh sub-agent that saw only the property text and a scratch worktree",
                    "base_commit": head, "tests": last[0].strip("= ") if last else "?", "checks": verdicts, "first_reports": firsts}
            with open(os.path.join(dst, "meta.json"), "w") as f:
                json.dump(meta, f, indent=1)
                f.write("\n")
            print("%s -> %s tests=%s checks=%s %s" % (d, name, "ok" if tests_ok else "NOT-GREEN", verdicts,
                                                      json.dumps(firsts)[:400] if firsts else ""))
    finally:
        sh(["git", "-C", "/repo", "worktree", "remove", "--force", wt])
        sh(["git", "-C", "/repo", "worktree", "prune"])


if __name__ == "__main__":
    main()
