#!/bin/bash
# run every registered check (tier $1, default quick) sequentially on /repo; summary table at the end
tier=${1:-quick}
cd /verif
ids=$(python3 -c "import json; print(' '.join(c['property_id'] for c in json.load(open('MANIFEST.json'))['checks']))")
for id in $ids; do
  s=$(date +%s)
  out=$(timeout 3600 /venv/bin/python check.py $id --tier $tier 2>/dev/null); rc=$?
  echo "$id rc=$rc $(( $(date +%s) - s ))s :: $(echo "$out" | tail -1)"
  echo "$out" | grep -E "^(VIOLATION|KNOWN-FINDING|HARNESS)" | head -5
done
