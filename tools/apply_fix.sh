#!/bin/bash
# apply one proposed fix to /repo as its own "fix:" commit (after running the test-suite)
set -e
name=$1
cd /repo
git diff --quiet || { echo "repo dirty"; exit 1; }
git apply /verif/fixes_proposed/$name.diff || git apply -C1 /verif/fixes_proposed/$name.diff
out=$(/venv/bin/python -m pytest -q -p no:cacheprovider --timeout=900 --continue-on-collection-errors 2>&1 | tail -1)
echo "$out"
case "$out" in *"190 passed"*) ;; *) echo "TESTS NOT GREEN"; git checkout -- .; exit 1;; esac
case "$out" in *failed*) echo "TESTS FAILED"; git checkout -- .; exit 1;; esac
git commit -qa -F /verif/fixes_proposed/$name.msg
echo "$(git rev-parse --short HEAD) $name"
