#!/venv/bin/python
"""Apply each mutant / seeded patch to a scratch worktree of /repo, run the repo's test-suite
and the property's check against it, and report a table.

usage: run_mutants.py [--tier quick] [--kind mutants|seeded|all] [ids ...]

Nothing is applied to /repo itself: a detached worktree of /repo's HEAD is created under
/root/scratch/mutants-<pid>, (re)used for every patch with `git checkout -- .` in between, and
removed at the end.  The check is pointed at it with MINGUS_REPO.
"""
import argparse
import glob
import json
import os
import subprocess
import sys
import time

VERIF = os.path.dirname(os.path.dirname(os.path.abspath(__file__)))


def sh(cmd, cwd=None, env=None, timeout=900):
    try:
        p = subprocess.run(cmd, cwd=cwd, env=env, stdout=subprocess.PIPE, stderr=subprocess.STDOUT, text=True, timeout=timeout)
        return p.returncode, p.stdout
    except subprocess.TimeoutExpired:
        return 124, "TIMEOUT after %ss" % timeout


def main():
    ap = argparse.ArgumentParser()
    ap.add_argument("--tier", default="quick")
    ap.add_argument("--kind", default="all")
    ap.add_argument("--no-tests", action="store_true")
    ap.add_argument("--also", default="", help="comma separated extra property checks to run on every patch")
    ap.add_argument("ids", nargs="*")
    a = ap.parse_args()
    patches = []
    if a.kind in ("mutants", "all"):
        for f in sorted(glob.glob(os.path.join(VERIF, "mutants", "c*", "*.diff"))):
            prop = os.path.basename(os.path.dirname(f)).upper()
            patches.append((prop, f))
    if a.kind in ("seeded", "all"):
        for d in sorted(glob.glob(os.path.join(VERIF, "seeded", "*"))):
            meta = os.path.join(d, "meta.json")
            pf = os.path.join(d, "patch.diff")
            if os.path.exists(meta) and os.path.exists(pf):
                prop = json.load(open(meta))["property"]
                patches.append((prop, pf))
    if a.ids:
        want = set(x.upper() for x in a.ids)
        patches = [p for p in patches if p[0] in want or os.path.basename(os.path.dirname(p[1])) in a.ids]
    wt = "/root/scratch/mutants-%d" % os.getpid()
    os.makedirs("/root/scratch", exist_ok=True)
    rc, out = sh(["git", "-C", "/repo", "worktree", "add", "--detach", wt])
    if rc:
        print(out)
        return 2
    rows = []
    try:
        for prop, pf in patches:
            sh(["git", "checkout", "--", "."], cwd=wt)
            sh(["git", "clean", "-fdq"], cwd=wt)
            rc, out = sh(["git", "apply", pf], cwd=wt)
            name = os.path.relpath(pf, VERIF)
            if rc:
                rows.append((prop, name, "DOES-NOT-APPLY", "-", "-"))
                print(rows[-1], out[-300:], flush=True)
                continue
            tests = "-"
            if not a.no_tests:
                rc, out = sh(["/venv/bin/python", "-m", "pytest", "-q", "-p", "no:cacheprovider", "--timeout=900",
                              "--continue-on-collection-errors"], cwd=wt)
                last = [l for l in out.strip().splitlines() if "passed" in l or "failed" in l][-1:]
                tests = "pass" if ("190 passed" in (last[0] if last else "") and "failed" not in last[0]) else "FAIL(%s)" % (last[0] if last else "?")
            env = dict(os.environ, MINGUS_REPO=wt, VERIF_NO_CONFIRM="1")
            verdicts = []
            for p in [prop] + [x for x in a.also.split(",") if x]:
                t = time.time()
                rc, out = sh(["/venv/bin/python", os.path.join(VERIF, "check.py"), p, "--tier", a.tier], env=env)
                firstv = [l for l in out.splitlines() if l.startswith("  clause=")][:1]
                verdicts.append("%s:%s(%.0fs)%s" % (p, {0: "missed", 1: "CAUGHT", 2: "HARNESS-ERR"}.get(rc, rc), time.time() - t,
                                                  " " + firstv[0].strip()[:110] if firstv else ""))
            rows.append((prop, name, tests, "; ".join(verdicts)))
            mj = os.path.join(os.path.dirname(pf), "meta.json")
            if os.path.basename(pf) == "patch.diff" and os.path.exists(mj):
                # keep the stored record of a seeded change in step with the current check
                meta = json.load(open(mj))
                head = sh(["git", "-C", "/repo", "rev-parse", "--short", "HEAD"])[1].strip()
                meta["detected_by_check"] = {a.tier: "caught" if "CAUGHT" in verdicts[0] else "missed",
                                             "first_violation": verdicts[0].split(") ", 1)[1][:400] if ") " in verdicts[0] else None,
                                             "rechecked_at_repo_commit": head}
                with open(mj, "w") as f:
                    json.dump(meta, f, indent=1)
                    f.write("\n")
            print(" | ".join(rows[-1]), flush=True)
    finally:
        sh(["git", "-C", "/repo", "worktree", "remove", "--force", wt])
        sh(["git", "-C", "/repo", "worktree", "prune"])
        # evidence files were rewritten by runs against the mutated tree: they are regenerated by
        # the caller on the real tree before committing
    caught = sum(1 for r in rows if "CAUGHT" in r[-1])
    print("patches=%d caught=%d" % (len(rows), caught))
    return 0


if __name__ == "__main__":
    sys.exit(main())
