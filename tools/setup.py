#!/venv/bin/python
"""MANIFEST.setup_cmd: nothing is compiled; run the reference models' self-tests and make sure
the library under test is importable from /repo's working tree."""
import importlib
import os
import pkgutil
import sys

HERE = os.path.dirname(os.path.dirname(os.path.abspath(__file__)))
sys.path.insert(0, HERE)
sys.dont_write_bytecode = True


def main():
    from mc import engine
    engine.bind_repo()
    import mc.ref
    n = 0
    for m in pkgutil.iter_modules(mc.ref.__path__):
        mod = importlib.import_module("mc.ref." + m.name)
        if hasattr(mod, "selftest"):
            mod.selftest()
            n += 1
            print("selftest ok: mc.ref." + m.name)
    os.makedirs(os.path.join(HERE, "evidence"), exist_ok=True)
    print("setup ok (%d reference self-tests)" % n)


if __name__ == "__main__":
    main()
