#!/venv/bin/python
"""Confirm and import breaking changes written by a seeder sub-agent.

usage: import_seed.py <seeder worktree> <PROPERTY> <tag> [--tier quick]

For every <worktree>/seed_out/<i>/ : in a *fresh* scratch worktree of /repo HEAD
  1. demo.py on the clean tree must exit 0,
  2. patch.diff must apply,
  3. the repository's test-suite must still report 190 passed,
  4. demo.py must now exit non-zero,
  5. the property's check (given tier) is run against the patched tree.
Confirmed changes are stored as /verif/seeded/<PROPERTY>-<tag><i>/ {patch.diff, demo.py, notes.md,
meta.json}.  Unconfirmed ones are reported and not stored.
"""
import json
import os
import shutil
import subprocess
import sys
import time

VERIF = os.path.dirname(os.path.dirname(os.path.abspath(__file__)))


def sh(cmd, cwd=None, env=None, timeout=900):
    try:
        p = subprocess.run(cmd, cwd=cwd, env=env, stdout=subprocess.PIPE, stderr=subprocess.STDOUT, text=True, timeout=timeout)
        return p.returncode, p.stdout
    except subprocess.TimeoutExpired:
        return 124, "TIMEOUT after %ss" % timeout


def main():
    src, prop, tag = sys.argv[1], sys.argv[2].upper(), sys.argv[3]
    tier = "quick"
    if "--tier" in sys.argv:
        tier = sys.argv[sys.argv.index("--tier") + 1]
    wt = "/root/scratch/seedcheck-%d" % os.getpid()
    os.makedirs("/root/scratch", exist_ok=True)
    rc, out = sh(["git", "-C", "/repo", "worktree", "add", "--detach", wt])
    assert rc == 0, out
    head = sh(["git", "-C", "/repo", "rev-parse", "--short", "HEAD"])[1].strip()
    try:
        for i in sorted(os.listdir(os.path.join(src, "seed_out"))):
            d = os.path.join(src, "seed_out", i)
            pf, demo = os.path.join(d, "patch.diff"), os.path.join(d, "demo.py")
            if not (os.path.exists(pf) and os.path.exists(demo)):
                print("%s: incomplete, skipped" % d)
                continue
            sh(["git", "checkout", "--", "."], cwd=wt)
            sh(["git", "clean", "-fdq"], cwd=wt)
            env = dict(os.environ, PYTHONPATH=wt, PYTHONDONTWRITEBYTECODE="1")
            ran = []
            # some demos name the author's worktree literally (to assert where mingus is imported from)
            demo_text = open(demo).read()
            demo_local = os.path.join(wt, "_seed_demo.py")
            with open(demo_local, "w") as f:
                f.write(demo_text.replace(os.path.realpath(src), wt).replace(src.rstrip("/"), wt))
            demo_orig, demo = demo, demo_local
            rc0, out0 = sh(["/venv/bin/python", demo], cwd=wt, env=env, timeout=600)
            ran.append("demo on clean tree -> exit %d" % rc0)
            rca, outa = sh(["git", "apply", pf], cwd=wt)
            if rca:
                print("%s: patch does not apply to /repo HEAD: %s" % (d, outa[-200:]))
                continue
            rct, outt = sh(["/venv/bin/python", "-m", "pytest", "-q", "-p", "no:cacheprovider", "--timeout=900",
                            "--continue-on-collection-errors"], cwd=wt)
            last = [l for l in outt.strip().splitlines() if "passed" in l or "failed" in l][-1:]
            tests_ok = bool(last) and "190 passed" in last[0] and "failed" not in last[0]
            ran.append("test-suite with patch -> %s" % (last[0].strip("= ") if last else "?"))
            rc1, out1 = sh(["/venv/bin/python", demo], cwd=wt, env=env, timeout=600)
            ran.append("demo with patch -> exit %d: %s" % (rc1, out1.strip().splitlines()[-1][:200] if out1.strip() else ""))
            confirmed = rc0 == 0 and tests_ok and rc1 != 0
            if not confirmed:
                print("%s: NOT CONFIRMED (%s)" % (d, "; ".join(ran)))
                continue
            t = time.time()
            cenv = dict(os.environ, MINGUS_REPO=wt, VERIF_NO_CONFIRM="1")
            rcc, outc = sh(["/venv/bin/python", os.path.join(VERIF, "check.py"), prop, "--tier", tier], env=cenv)
            firstv = [l.strip() for l in outc.splitlines() if l.startswith("  clause=")][:1]
            verdict = {0: "missed", 1: "caught", 2: "harness-error"}.get(rcc, str(rcc))
            ran.append("check.py %s --tier %s against the patched tree -> %s (%.0fs)%s" % (
                prop, tier, verdict, time.time() - t, " " + firstv[0][:300] if firstv else ""))
            name = "%s-%s%s" % (prop, tag, i)
            dst = os.path.join(VERIF, "seeded", name)
            os.makedirs(dst, exist_ok=True)
            shutil.copy(pf, os.path.join(dst, "patch.diff"))
            with open(os.path.join(dst, "demo.py"), "w") as f:
                f.write(demo_text.replace(os.path.realpath(src), "/repo").replace(src.rstrip("/"), "/repo"))
            notes = ""
            if os.path.exists(os.path.join(d, "notes.md")):
                shutil.copy(os.path.join(d, "notes.md"), os.path.join(dst, "notes.md"))
                notes = open(os.path.join(d, "notes.md")).read()
            meta = {
                "property": prop,
                "origin": "written by a fresh sub-agent that saw only the property text and a scratch worktree",
                "base_commit": head,
                "needs_to_manifest": notes[:1500],
                "what_i_ran": ran,
                "detected_by_check": {tier: verdict, "first_violation": firstv[0][:400] if firstv else None},
            }
            with open(os.path.join(dst, "meta.json"), "w") as f:
                json.dump(meta, f, indent=1)
                f.write("\n")
            print("%s: CONFIRMED -> %s ; check: %s %s" % (d, name, verdict, firstv[0][:160] if firstv else ""))
    finally:
        sh(["git", "-C", "/repo", "worktree", "remove", "--force", wt])
        sh(["git", "-C", "/repo", "worktree", "prune"])


if __name__ == "__main__":
    main()
