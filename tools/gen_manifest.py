#!/venv/bin/python
"""Regenerate /verif/MANIFEST.json from tools/checks_meta.json and validate it."""
import json
import os
import sys

HERE = os.path.dirname(os.path.dirname(os.path.abspath(__file__)))


def main():
    meta = json.load(open(os.path.join(HERE, "tools", "checks_meta.json")))
    import glob
    for f in sorted(glob.glob(os.path.join(HERE, "tools", "meta_c*.json"))):
        pid = os.path.basename(f)[5:-5].upper()
        if pid in meta.get("hold", []):
            continue
        m = json.load(open(f))
        meta["checks"][pid] = {"text": m["text"] + ((" " + m["added"]) if m.get("added") else ""), "note": m["note"], "technique": m.get("technique", "explicit-state bounded model checking of the implementation against a reference model")}
    props = [json.loads(l) for l in open(os.path.join(HERE, "properties.jsonl"))]
    ids = [p["id"] for p in props]
    checks = []
    for pid in ids:
        m = meta["checks"].get(pid)
        if not m:
            continue
        if not os.path.exists(os.path.join(HERE, "mc", "checks", pid.lower() + ".py")):
            raise SystemExit("check module for %s missing" % pid)
        checks.append({
            "property_id": pid,
            "quick_cmd": "/venv/bin/python /verif/check.py %s --tier quick" % pid,
            "thorough_cmd": "/venv/bin/python /verif/check.py %s --tier thorough" % pid,
            "evidence_file": "/verif/evidence/%s.json" % pid,
            "replay_cmd_template": "/venv/bin/python /verif/check.py %s --replay {path}" % pid,
            "engine": "mc-explorer",
            "level_claimed": {"category": "model_checking", "text": m["text"], "design_ref": "DESIGN.md section 4, " + pid},
            "level_note": m["note"],
            "technique": m["technique"],
        })
    na = [{"property_id": pid, "reason": meta["not_applicable"].get(pid, "check not built yet in this session; planned in DESIGN.md section 4")}
          for pid in ids if pid not in meta["checks"]]
    manifest = {
        "version": 1,
        "setup_cmd": "/venv/bin/python /verif/tools/setup.py",
        "hooks": {
            "guard": "MINGUS_VERIF",
            "enable": "no source hook is needed: checks import mingus straight from /repo's working tree (MINGUS_VERIF is reserved and unused)",
            "baseline_off_cmd": "cd /repo && /venv/bin/python -m pytest -ra -q -p no:cacheprovider --timeout=900 --continue-on-collection-errors",
            "source_commits": [],
            "add_only": True,
        },
        "engines": [{
            "name": "mc-explorer",
            "path": "/verif/mc/engine.py",
            "serves_properties": [c["property_id"] for c in checks],
            "kind_free_text": "hand-written explicit-state / bounded-exhaustive explorer (bfs over operation histories with canonical-state deduplication, exhaustive products over input grammars, deviation-bounded program enumeration) driving the real implementation in lock-step with Python reference models",
        }],
        "checks": checks,
        "notes": meta.get("notes", ""),
        "not_applicable": na,
    }
    out = os.path.join(HERE, "MANIFEST.json")
    with open(out + ".tmp", "w") as f:
        json.dump(manifest, f, indent=1)
        f.write("\n")
    os.replace(out + ".tmp", out)
    try:
        import jsonschema
        schema = json.load(open("/root/.vp/MANIFEST.schema.json"))
        jsonschema.validate(manifest, schema)
        print("MANIFEST.json valid: %d checks, %d not_applicable" % (len(checks), len(na)))
    except ImportError:
        print("MANIFEST.json written (jsonschema not importable here: run with python3-vt to validate)")


if __name__ == "__main__":
    main()
