#!/venv/bin/python
"""Run, on every stored behaviour-preserving change (neutral/*/patch.diff), the quick check of EVERY property whose
anchored files the patch touches (not only the property it was written for), and record the verdicts in its meta.json.

usage: neutral_matrix.py [names...]
"""
import glob, json, os, re, subprocess, sys, time
VERIF = os.path.dirname(os.path.dirname(os.path.abspath(__file__)))


def sh(cmd, cwd=None, env=None, timeout=900):
    try:
        p = subprocess.run(cmd, cwd=cwd, env=env, stdout=subprocess.PIPE, stderr=subprocess.STDOUT, text=True, timeout=timeout)
        return p.returncode, p.stdout
    except subprocess.TimeoutExpired:
        return 124, "TIMEOUT"


def main():
    props = [json.loads(l) for l in open(os.path.join(VERIF, "properties.jsonl"))]
    want = set(sys.argv[1:])
    wt = "/root/scratch/neutralmx-%d" % os.getpid()
    rc, out = sh(["git", "-C", "/repo", "worktree", "add", "--detach", wt])
    assert rc == 0, out
    alarms = 0
    try:
        for d in sorted(glob.glob(os.path.join(VERIF, "neutral", "*"))):
            name = os.path.basename(d)
            if want and name not in want:
                continue
            pf = os.path.join(d, "patch.diff")
            touched = set(re.findall(r"^\+\+\+ b/(\S+)", open(pf).read(), re.M))
            targets = [p["id"] for p in props if touched & set(p["anchors"]["files"])]
            if os.environ.get("NEUTRAL_OWN_ONLY"):
                own = name.split("-")[0]
                targets = [t for t in targets if t == own] or [own]
            if os.environ.get("NEUTRAL_ONLY"):
                targets = [t for t in targets if t in os.environ["NEUTRAL_ONLY"].split(",")]
            meta = json.load(open(os.path.join(d, "meta.json")))
            done = meta.get("checks", {})
            sh(["git", "checkout", "--", "."], cwd=wt)
            sh(["git", "clean", "-fdq"], cwd=wt)
            rca, outa = sh(["git", "apply", pf], cwd=wt)
            if rca:
                print("%s: does not apply to HEAD any more" % name)
                continue
            for pid in targets:
                if done.get(pid) == "silent" and not os.environ.get("NEUTRAL_RECHECK"):
                    continue
                env = dict(os.environ, MINGUS_REPO=wt, VERIF_NO_CONFIRM="1")
                rcc, outc = sh(["/venv/bin/python", os.path.join(VERIF, "check.py"), pid, "--tier", "quick"], env=env, timeout=1200)
                done[pid] = {0: "silent", 1: "ALARM", 2: "HARNESS-ERROR", 124: "TIMEOUT"}.get(rcc, str(rcc))
                if rcc:
                    alarms += 1
                    fv = [l.strip() for l in outc.splitlines() if l.startswith("  clause=") or l.startswith("HARNESS")][:2]
                    meta.setdefault("first_reports", {})[pid] = fv
                    print("%s: %s -> %s %s" % (name, pid, done[pid], json.dumps(fv)[:300]), flush=True)
            meta["checks"] = done
            with open(os.path.join(d, "meta.json"), "w") as f:
                json.dump(meta, f, indent=1)
                f.write("\n")
            print("%s: touched=%s checks=%s" % (name, sorted(touched), done), flush=True)
    finally:
        sh(["git", "-C", "/repo", "worktree", "remove", "--force", wt])
        sh(["git", "-C", "/repo", "worktree", "prune"])
    print("alarms=%d" % alarms)


if __name__ == "__main__":
    main()
