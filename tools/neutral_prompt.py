#!/venv/bin/python
"""Prompt for a sub-agent that writes behaviour-PRESERVING changes (to test that checks raise no false alarm)."""
import json, sys
pid, wt = sys.argv[1], sys.argv[2]
import glob, os
avoid = ""
if len(sys.argv) > 3 and sys.argv[3] == "avoid":
    heads = []
    for d in sorted(glob.glob('/verif/neutral/%s-*' % pid)):
        f = os.path.join(d, 'notes.md')
        if os.path.exists(f):
            lines = [l.strip('# ').strip() for l in open(f) if l.strip()]
            if lines:
                heads.append(lines[0][:160])
    avoid = ("\n\nOther engineers already produced the changes listed below; yours must be different in kind. This time prefer: CORRECT memo tables and "
             "caches with history (right key including every argument and flag, results copied out, invalidated where needed, filled lazily), lazily built "
             "lookup tables, exception paths restructured with try/finally so that a refused call leaves no trace, per-object private caches that are "
             "invalidated by every mutator, fast paths that are exact, and re-implementations of comparison / equality / hashing helpers that give the same "
             "answers. They must be correct under ANY sequence of calls (valid and refused ones), for objects shared between containers, for objects edited "
             "in place between calls, and after importlib.reload of the module.\n" + "\n".join("  - " + h for h in heads))
for l in open('/verif/properties.jsonl'):
    p = json.loads(l)
    if p['id'] == pid:
        break
print(f"""You are helping to test a verification effort for the open-source Python music-theory library bspaans/python-mingus. You have your own scratch git worktree of the library at {wt} (work ONLY inside that directory; do not read or touch /repo, /verif or any other directory; the Python interpreter is /venv/bin/python; run scripts with `cd {wt} && PYTHONPATH={wt} /venv/bin/python yourscript.py` and check `mingus.__file__` points into your worktree).

Here is a semantic property the library satisfies today:

TITLE: {p['title']}

STATEMENT: {p['statement']}

Relevant source files: {', '.join(p['anchors']['files'])}

Your task: produce 3 DIFFERENT, independent, realistic maintenance changes (patches) to the library's source (under {wt}/mingus/ only, never tests) that a maintainer might make and that KEEP the property above true for every input and every call history — genuine refactorings and internal improvements of the code the property is about, for example: rewriting a function with a different algorithm or data structure (a table instead of an if-chain, arithmetic instead of a loop, a regex, a comprehension), introducing a CORRECT cache (right key, results copied out), renaming or restructuring private helpers and private module-level tables, changing an internal representation (e.g. keeping an exact running total next to a float, tuples instead of lists internally, a private attribute added to a class) while keeping the public API, attributes and return values exactly as they are, reordering independent statements, tightening input validation in ways the statement already demands, improving error messages (same exception types). Make them substantial (not a comment or whitespace change): each should touch the logic the property talks about and would make a careless checker, which peeks at private details or depends on incidental behaviour, raise a false alarm. They must not change any behaviour the statement speaks about, and should also keep everything else the public API documents.{avoid}

Each change, applied alone to the clean tree, must import/compile and keep the test-suite green: `cd {wt} && /venv/bin/python -m pytest -q -p no:cacheprovider --timeout=900 --continue-on-collection-errors` must still report `190 passed` (1 collection error for test_fluidsynth is the normal baseline).

For each change i = 1..3 write, in {wt}/neutral_out/<i>/ :
  * patch.diff — `git diff` of that change alone against the clean worktree (must apply with `git apply` to a clean checkout);
  * notes.md — what was changed and your argument why the property (every clause that could be affected) still holds for all inputs and histories; also list anything observable that DID change (e.g. wording of an error message, a new private attribute).
Also write {wt}/neutral_out/equiv.py: a stand-alone differential script that, for a broad exhaustive-ish range of inputs relevant to the property, records the observable results of the public API (as JSON to stdout); run it on the clean tree and with each patch and confirm the outputs are identical (state the result in notes.md).  Verify each patch from a clean tree (`git checkout -- . && git clean -fdq -e neutral_out`), and leave the worktree clean (apart from neutral_out/) when you finish. Your final message should list the patches with a one-line description each.""")
