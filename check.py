#!/venv/bin/python
# -*- coding: utf-8 -*-
"""Entry point:  check.py <property id> [--tier quick|thorough] [--replay <file>]

exit 0  property held on everything explored (KNOWN-FINDING lines possible)
exit 1  at least one unlisted violation (VIOLATION property=<id> replay=<path>)
exit 2  harness error (never a verdict)
"""
import argparse
import importlib
import json
import os
import sys
import traceback

os.environ.setdefault("PYTHONDONTWRITEBYTECODE", "1")
sys.dont_write_bytecode = True
HERE = os.path.dirname(os.path.abspath(__file__))
sys.path.insert(0, HERE)


def main():
    ap = argparse.ArgumentParser()
    ap.add_argument("prop")
    ap.add_argument("--tier", default=os.environ.get("VERIF_TIER", "quick"), choices=["quick", "thorough"])
    ap.add_argument("--replay")
    ap.add_argument("--quiet", action="store_true")
    ap.add_argument("--only", help="comma separated clause names (debugging; evidence is marked partial)")
    args = ap.parse_args()
    if os.environ.get("PYTHONHASHSEED") != "0":
        # own hash-order nondeterminism: re-exec with a fixed hash seed
        os.environ["PYTHONHASHSEED"] = "0"
        os.execv(sys.executable, [sys.executable] + sys.argv)
    seed = int(os.environ.get("VERIF_SEED", "0") or 0)

    from mc import engine
    try:
        engine.bind_repo()
        # library prints (e.g. the MIDI reader) must not reach our stdout
        sys.stdout = open(os.devnull, "w")
        module = importlib.import_module("mc.checks.%s" % args.prop.lower())
        if args.replay:
            with open(args.replay) as f:
                rec = json.load(f)
            probs = engine.replay_record(module, rec)
            if probs:
                p = probs[0]
                engine.emit("VIOLATION property=%s replay=%s" % (args.prop, args.replay))
                engine.emit("  clause=%s site=%s expected=%s observed=%s" % (
                    p["clause"], p["site"], json.dumps(p["expected"], default=repr)[:300], json.dumps(p["observed"], default=repr)[:300]))
                return 1
            if not args.quiet:
                engine.emit("replay of %s: no violation on this tree" % args.replay)
            return 0
        ctx = engine.Ctx(args.prop, args.tier, seed, module)
        ctx.only = set(args.only.split(",")) if args.only else None
        if ctx.only:
            ctx.exhaustive = False
            ctx.caps_hit.append("--only " + args.only)
        module.explore(ctx)
        return engine.finish(ctx)
    except engine.HarnessError as e:
        engine.emit("HARNESS-ERROR %s" % e)
        return 2
    except Exception:                                                # noqa
        engine.emit("HARNESS-ERROR unexpected exception in the checker:\n" + traceback.format_exc())
        return 2


if __name__ == "__main__":
    sys.exit(main())
